/-
C07 — multi-AIU clock alignment is a rigid per-rank shift, blind to counter epochs.

Property theorems only; helper lemmas live in `Lemmas/MpSync.lean`, the model in `Model/MpSync.lean`.
`mpSync evs` is what `MpSyncTightContext.drain` emits after the stage has buffered `evs`
(`.error` = the Python exception class).  All statements are for arbitrary event lists.
-/
import AiuVerif.Lemmas.MpSyncEpoch

namespace AiuVerif
namespace C07
open MpSync

/-- How an input event `e` relates to its aligned version `e'` under a per-rank offset `off`:
host-only events are untouched as a whole; a device event keeps identity, phase, pid, name and
duration and is placed at `ts_dev[start of its phase] + off pid`. -/
structure Placed (off : Int → Rat) (e e' : MEv) : Prop where
  host_untouched : isDev e = false → e' = e
  same_event : e'.uid = e.uid ∧ e'.ph = e.ph ∧ e'.pid = e.pid ∧ e'.name = e.name
  dur_untouched : e'.dur = e.dur
  placed : isDev e = true →
    ∃ l t, tsDevOf e = some l ∧ l[opId e.name]? = some t ∧ e'.ts = t + off e.pid

/-- **Rigid per-rank shift.**  Whenever the stage aligns (≥ 2 ranks with collectives, ≥ 1 group of
rank 0) and does not raise, there is ONE offset per pid — independent of the event — such that the
output is a permutation of the input in which every device event sits at
`ts_dev[opId name] + off pid` with its duration untouched, and every host-only event is unchanged. -/
theorem rigid_shift (evs out : List MEv) (h : mpSync evs = .ok out) (hact : acts evs = true) :
    ∃ (off : Int → Rat) (placed : List MEv),
      out.Perm placed ∧ List.Forall₂ (Placed off) evs placed := by
  obtain ⟨c, evs', _, hm, rfl⟩ := mpSyncG_act hact h
  refine ⟨fun pid => (offsetOf c pid).getD 0, evs', ?_, ?_⟩
  · exact (sortOut_perm _).trans (List.reverse_perm _)
  · refine (mapM_ok_forall₂ hm).imp ?_
    intro e e' he
    by_cases hd : isDev e = true
    · obtain ⟨a, l, s, t, ha, hl, hs, ht, rfl⟩ := alter_dev he hd
      refine ⟨fun hf => by simp [hd] at hf, ⟨rfl, rfl, rfl, rfl⟩, rfl, fun _ => ⟨l, t, ?_, ht, ?_⟩⟩
      · simp [tsDevOf, ha, hl]
      · simp only [offsetOf, hs, Option.map_some, Option.getD_some]
        grind
    · have hd' : isDev e = false := by simpa using hd
      have := alter_host he hd'
      subst this
      exact ⟨fun _ => rfl, ⟨rfl, rfl, rfl, rfl⟩, rfl, fun hf => by simp [hd'] at hf⟩

/-- **… in terms of the cycle counters.**  If the buffered `ts_dev` of a device event is what
`_conv_DTS_to_array_in_us` produces from its counters `TS1..TS5` at frequency `f`, the event is placed
at `TSa / f + off pid`, `TSa` being the start counter of its phase. -/
theorem rigid_shift_counters (evs out : List MEv) (h : mpSync evs = .ok out) (hact : acts evs = true) :
    ∃ (off : Int → Rat) (placed : List MEv),
      out.Perm placed ∧ List.Forall₂ (Placed off) evs placed ∧
      List.Forall₂ (fun e e' => ∀ (f : Rat) (cnt : List Int), isDev e = true → tsDevOf e = some (convDev f cnt) →
        ∃ tsa : Int, cnt[opId e.name]? = some tsa ∧ e'.ts = (tsa : Rat) / f + off e.pid) evs placed := by
  obtain ⟨off, placed, hp, hf⟩ := rigid_shift evs out h hact
  refine ⟨off, placed, hp, hf, hf.imp ?_⟩
  intro e e' hpl f cnt hd hconv
  obtain ⟨l, t, hl, ht, hts⟩ := hpl.placed hd
  rw [hconv] at hl
  cases hl
  simp only [convDev, List.getElem?_map] at ht
  cases hc : cnt[opId e.name]? with
  | none => simp [hc] at ht
  | some tsa =>
    simp only [hc, Option.map_some, Option.some.injEq] at ht
    exact ⟨tsa, rfl, by rw [hts, ← ht]⟩

/-- **No action.**  With fewer than two ranks owning collectives, or no collective group on rank 0,
the stage only reverses and stably sorts: it never raises and every event comes out unchanged. -/
theorem no_action (evs : List MEv) (h : acts evs = false) :
    ∃ out, mpSync evs = .ok out ∧ out = sortOut evs.reverse ∧ out.Perm evs :=
  ⟨_, mpSyncG_noact h, rfl, (sortOut_perm _).trans (List.reverse_perm _)⟩

/-- **Single-rank traces are not shifted at all** (whatever collectives they contain). -/
theorem single_rank_untouched (evs : List MEv) (p : Int) (h : ∀ e ∈ evs, e.pid = p) :
    ∃ out, mpSync evs = .ok out ∧ out.Perm evs := by
  obtain ⟨out, h1, _, h3⟩ := no_action evs (acts_false_of_single_pid p h)
  exact ⟨out, h1, h3⟩

/-- **Collective-free traces are not shifted at all** (however many ranks). -/
theorem collective_free_untouched (evs : List MEv) (h : ∀ e ∈ evs, collKey e = none) :
    ∃ out, mpSync evs = .ok out ∧ out.Perm evs := by
  obtain ⟨out, h1, _, h3⟩ := no_action evs (acts_false_of_collective_free h)
  exact ⟨out, h1, h3⟩

/-- the emitted list is sorted by `ts` in every case -/
theorem sorted_out (evs out : List MEv) (h : mpSync evs = .ok out) :
    out.Pairwise (fun a b => a.ts ≤ b.ts) := by
  by_cases hact : acts evs = true
  · obtain ⟨c, evs', _, _, rfl⟩ := mpSyncG_act hact h
    exact sortOut_sorted _
  · have hact' : acts evs = false := by simpa using hact
    have := mpSyncG_noact (rf := refOffset) hact'
    rw [show mpSyncG refOffset evs = mpSync evs from rfl, h] at this
    cases this
    exact sortOut_sorted _

/-- **Blind to counter epochs.**  Let all device counters of rank `r` be offset by a constant
(`c` µs `= K / soc_freq`, i.e. the device was powered on at a different time; `shiftRank r c` adds
`c` to every `ts_dev` entry of every event of pid `r`).  Then the stage behaves identically: it
raises the same error class, or emits the same events in the same order with the same `ts`, `dur`
and `ts_all` — everything except the scratch copy `args.ts_dev`, which `cleanup_copy_of_device_ts`
removes before export.  Hypothesis: device events carry non-negative pids (a negative pid would
alias another rank through Python's negative list index). -/
theorem epoch_invariant (evs : List MEv) (r : Int) (c : Rat)
    (hpid : ∀ e ∈ evs, isDev e = true → 0 ≤ e.pid) :
    (mpSync (evs.map (shiftRank r c))).map (fun out => out.map eraseDev) =
      (mpSync evs).map (fun out => out.map eraseDev) :=
  mpSync_shift r c evs hpid

/-- a constant `K` on the cycle counters is the constant `K / f` on `ts_dev` (`_conv_DTS_to_array_in_us`) -/
theorem epoch_counters (f : Rat) (K : Int) (cnt : List Int) :
    convDev f (cnt.map (· + K)) = (convDev f cnt).map (· + (K : Rat) / f) := by
  simp only [convDev, List.map_map]
  apply List.map_congr_left
  intro a _
  simp only [Function.comp]
  rw [Rat.intCast_add]; grind

/-! ### regression sentinel: the reference offset before the repair (`oldRefOffset`) -/

private def dev (uid : Nat) (pid : Int) (name : String) (ts dur : Rat) (cg : Option String) (l : List Rat) : MEv :=
  { uid := uid, ph := "X", pid := pid, name := name, ts := ts, dur := some dur,
    args := some { cg := cg, hasTS5 := true, tsDev := some l, tsAll := none } }
private def host (uid : Nat) (pid : Int) (ts dur : Rat) : MEv :=
  { uid := uid, ph := "X", pid := pid, name := "hostwork", ts := ts, dur := some dur,
    args := some { cg := none, hasTS5 := false, tsDev := none, tsAll := none } }

/-- three ranks, one group whose rank-0 names lack "AllReduce_all_reduce" (chain branch) -/
def chain3 : List MEv := [
  host 0 0 5 3,
  dev 1 0 "Recv_0 DmaI" 20 1 (some "AllReduce_ar_0") [100, 101, 101, 101, 102],
  dev 2 1 "Recv_0 DmaI" 20 1 (some "AllReduce_ar_0") [500, 503, 503, 503, 504],
  dev 3 2 "Send_0 DmaO" 20 1 (some "AllReduce_ar_0") [900, 900, 900, 900, 905],
  dev 4 1 "mm Cmpt Exec" 7 2 none [510, 510, 511, 513, 513]]

/-- a two-rank trace whose rank-0 names carry the `[sync=AllReduce_all_reduce_…]` tag (tree branch) -/
def tree2 : List MEv := [
  host 0 0 5 3,
  dev 1 0 "Send_0 [sync=AllReduce_all_reduce_0_x] DmaO" 20 1 (some "AllReduce_all_reduce_0") [100, 100, 100, 100, 101],
  dev 2 1 "Recv_0 [sync=AllReduce_all_reduce_0_x] DmaI" 20 1 (some "AllReduce_all_reduce_0") [500, 503, 503, 503, 504],
  dev 3 1 "mm Cmpt Exec" 7 2 none [510, 510, 511, 513, 513]]

/-- **Sentinel.**  With the reference offset computed from rank 0's *raw* device time (the code before
`fix: anchor multi-AIU alignment to rank 0's shifted device clock`) the epoch clause is false: on the
three-rank chain trace `chain3`, offsetting rank 0's counters by 1000 µs moves every device slice. -/
theorem epoch_dependent_chain3 :
    (mpSyncG oldRefOffset (chain3.map (shiftRank 0 1000))).map (fun out => out.map eraseDev) ≠
      (mpSyncG oldRefOffset chain3).map (fun out => out.map eraseDev) := by
  decide +kernel

/-- … and the old formula puts rank 0's own reference slice 402 µs (= `dts_shifts[0]`) away from its
host time, while the repaired one keeps it there (`ts = 20`) -/
theorem old_formula_displaces_rank0 :
    ((mpSyncG oldRefOffset chain3).toOption.map fun out => (out.filter (·.uid = 1)).map (·.ts)) = some [422] ∧
    ((mpSync chain3).toOption.map fun out => (out.filter (·.uid = 1)).map (·.ts)) = some [20] := by
  decide +kernel

/-! ### non-vacuity -/

/-- `rigid_shift` / `rigid_shift_counters` apply to `tree2` and `chain3`: the stage aligns and does not raise;
the two ranks of `tree2` get different offsets (-80 and -482) -/
example : acts tree2 = true ∧ acts chain3 = true ∧
    ((mpSync tree2).toOption.map fun out => out.map fun e => (e.uid, e.ts)) = some [(0, 5), (2, 18), (1, 20), (3, 29)] ∧
    ((mpSync chain3).toOption.map fun out => out.map fun e => (e.uid, e.ts)) =
      some [(0, 5), (3, 16), (2, 18), (1, 20), (4, 29)] := by decide +kernel

/-- `ts_dev` of `tree2` is `convDev 512` of integer counters (hypothesis of `rigid_shift_counters`) -/
example : convDev 512 [51200, 51200, 51200, 51200, 51712] = [100, 100, 100, 100, 101] := by decide +kernel

/-- `epoch_invariant`'s hypothesis holds on both traces, and the transformation is not the identity there -/
example : (∀ e ∈ chain3, isDev e = true → 0 ≤ e.pid) ∧ chain3.map (shiftRank 0 1000) ≠ chain3 := by decide +kernel

/-- `no_action`: one rank with collectives only (`acts = false`), yet the list is not already sorted -/
example : acts (tree2.filter (·.pid = 1)) = false ∧
    mpSync (tree2.filter (·.pid = 1)) ≠ .ok (tree2.filter (·.pid = 1)) := by decide +kernel

/-- `collective_free_untouched`: two ranks, no CollGroup anywhere -/
example : ∀ e ∈ [host 0 0 5 3, dev 4 1 "mm Cmpt Exec" 7 2 none [510, 510, 511, 513, 513]], collKey e = none := by
  decide +kernel

end C07
end AiuVerif
