/-
C07 — multi-AIU clock alignment is a rigid per-rank shift, blind to counter epochs.

Property theorems only; helper lemmas live in `Lemmas/MpSync.lean`, the model in `Model/MpSync.lean`.
`mpSync evs` is what `MpSyncTightContext.drain` emits after the stage has buffered `evs`
(`.error` = the Python exception class).  All statements are for arbitrary event lists.
-/
import AiuVerif.Lemmas.MpSync

namespace AiuVerif
namespace C07
open MpSync

/-- How an input event `e` relates to its aligned version `e'` under a per-rank offset `off`:
host-only events are untouched as a whole; a device event keeps identity, phase, pid, name and
duration and is placed at `ts_dev[start of its phase] + off pid`. -/
structure Placed (off : Int → Rat) (e e' : MEv) : Prop where
  host_untouched : isDev e = false → e' = e
  same_event : e'.uid = e.uid ∧ e'.ph = e.ph ∧ e'.pid = e.pid ∧ e'.name = e.name
  dur_untouched : e'.dur = e.dur
  placed : isDev e = true →
    ∃ l t, tsDevOf e = some l ∧ l[opId e.name]? = some t ∧ e'.ts = t + off e.pid

/-- **Rigid per-rank shift.**  Whenever the stage aligns (≥ 2 ranks with collectives, ≥ 1 group of
rank 0) and does not raise, there is ONE offset per pid — independent of the event — such that the
output is a permutation of the input in which every device event sits at
`ts_dev[opId name] + off pid` with its duration untouched, and every host-only event is unchanged. -/
theorem rigid_shift (evs out : List MEv) (h : mpSync evs = .ok out) (hact : acts evs = true) :
    ∃ (off : Int → Rat) (placed : List MEv),
      out.Perm placed ∧ List.Forall₂ (Placed off) evs placed := by
  obtain ⟨c, evs', _, hm, rfl⟩ := mpSyncG_act hact h
  refine ⟨fun pid => (offsetOf c pid).getD 0, evs', ?_, ?_⟩
  · exact (sortOut_perm _).trans (List.reverse_perm _)
  · refine (mapM_ok_forall₂ hm).imp ?_
    intro e e' he
    by_cases hd : isDev e = true
    · obtain ⟨a, l, s, t, ha, hl, hs, ht, rfl⟩ := alter_dev he hd
      refine ⟨fun hf => by simp [hd] at hf, ⟨rfl, rfl, rfl, rfl⟩, rfl, fun _ => ⟨l, t, ?_, ht, ?_⟩⟩
      · simp [tsDevOf, ha, hl]
      · simp only [offsetOf, hs, Option.map_some, Option.getD_some]
        grind
    · have hd' : isDev e = false := by simpa using hd
      have := alter_host he hd'
      subst this
      exact ⟨fun _ => rfl, ⟨rfl, rfl, rfl, rfl⟩, rfl, fun hf => by simp [hd'] at hf⟩

/-- **… in terms of the cycle counters.**  If the buffered `ts_dev` of a device event is what
`_conv_DTS_to_array_in_us` produces from its counters `TS1..TS5` at frequency `f`, the event is placed
at `TSa / f + off pid`, `TSa` being the start counter of its phase. -/
theorem rigid_shift_counters (evs out : List MEv) (h : mpSync evs = .ok out) (hact : acts evs = true) :
    ∃ (off : Int → Rat) (placed : List MEv),
      out.Perm placed ∧ List.Forall₂ (Placed off) evs placed ∧
      List.Forall₂ (fun e e' => ∀ (f : Rat) (cnt : List Int), isDev e = true → tsDevOf e = some (convDev f cnt) →
        ∃ tsa : Int, cnt[opId e.name]? = some tsa ∧ e'.ts = (tsa : Rat) / f + off e.pid) evs placed := by
  obtain ⟨off, placed, hp, hf⟩ := rigid_shift evs out h hact
  refine ⟨off, placed, hp, hf, hf.imp ?_⟩
  intro e e' hpl f cnt hd hconv
  obtain ⟨l, t, hl, ht, hts⟩ := hpl.placed hd
  rw [hconv] at hl
  cases hl
  simp only [convDev, List.getElem?_map] at ht
  cases hc : cnt[opId e.name]? with
  | none => simp [hc] at ht
  | some tsa =>
    simp only [hc, Option.map_some, Option.some.injEq] at ht
    exact ⟨tsa, rfl, by rw [hts, ← ht]⟩

/-- **No action.**  With fewer than two ranks owning collectives, or no collective group on rank 0,
the stage only reverses and stably sorts: it never raises and every event comes out unchanged. -/
theorem no_action (evs : List MEv) (h : acts evs = false) :
    ∃ out, mpSync evs = .ok out ∧ out = sortOut evs.reverse ∧ out.Perm evs :=
  ⟨_, mpSyncG_noact h, rfl, (sortOut_perm _).trans (List.reverse_perm _)⟩

/-- **Single-rank traces are not shifted at all** (whatever collectives they contain). -/
theorem single_rank_untouched (evs : List MEv) (p : Int) (h : ∀ e ∈ evs, e.pid = p) :
    ∃ out, mpSync evs = .ok out ∧ out.Perm evs := by
  obtain ⟨out, h1, _, h3⟩ := no_action evs (acts_false_of_single_pid p h)
  exact ⟨out, h1, h3⟩

/-- **Collective-free traces are not shifted at all** (however many ranks). -/
theorem collective_free_untouched (evs : List MEv) (h : ∀ e ∈ evs, collKey e = none) :
    ∃ out, mpSync evs = .ok out ∧ out.Perm evs := by
  obtain ⟨out, h1, _, h3⟩ := no_action evs (acts_false_of_collective_free h)
  exact ⟨out, h1, h3⟩

/-- the emitted list is sorted by `ts` in every case -/
theorem sorted_out (evs out : List MEv) (h : mpSync evs = .ok out) :
    out.Pairwise (fun a b => a.ts ≤ b.ts) := by
  by_cases hact : acts evs = true
  · obtain ⟨c, evs', _, _, rfl⟩ := mpSyncG_act hact h
    exact sortOut_sorted _
  · have hact' : acts evs = false := by simpa using hact
    have := mpSyncG_noact (rf := refOffset) hact'
    rw [show mpSyncG refOffset evs = mpSync evs from rfl, h] at this
    cases this
    exact sortOut_sorted _

end C07
end AiuVerif
