/-
C01, clause "still carrying its user-supplied argument keys", at the export step
(`EventProcessor.convert_events` + the event classes): every entry of the event's `args`
dictionary and every unknown top-level entry is an entry of the exported `args`, with its value -
whatever that value is (a JSON `null`, a nested dictionary: values are opaque) - and nothing else is.
The only interaction is the documented one: an unknown top-level entry overwrites an `args` entry of
the same name.
-/
import AiuVerif.Model.ExportArgs

namespace AiuVerif.C01
open AiuVerif.ExportArgs

variable {V : Type}

theorem lookup_assign_same (d : KV V) (k : String) (v : V) : lookup (assign d k v) k = some v := by
  induction d with
  | nil => simp [assign, lookup]
  | cons p rest ih =>
    obtain ⟨k', v'⟩ := p
    by_cases h : k' = k
    · simp [assign, lookup, h]
    · simp [assign, lookup, h, ih]

theorem lookup_assign_other (d : KV V) (k k2 : String) (v : V) (h : k ≠ k2) :
    lookup (assign d k v) k2 = lookup d k2 := by
  induction d with
  | nil => simp [assign, lookup, h]
  | cons p rest ih =>
    obtain ⟨k', v'⟩ := p
    by_cases h1 : k' = k
    · subst h1
      simp [assign, lookup, h]
    · by_cases h2 : k' = k2
      · subst h2
        simp [assign, lookup, h1]
      · simp [assign, lookup, h1, h2, ih]

/-- folding assignments: a key that none of the assigned entries names keeps its entry -/
theorem lookup_foldl_untouched (u : KV V) (a : KV V) (k : String) (h : ∀ p ∈ u, p.1 ≠ k) :
    lookup (u.foldl (fun a p => assign a p.1 p.2) a) k = lookup a k := by
  induction u generalizing a with
  | nil => rfl
  | cons p rest ih =>
    simp only [List.foldl_cons]
    rw [ih _ (fun q hq => h q (List.mem_cons_of_mem _ hq))]
    exact lookup_assign_other a p.1 k p.2 (h p List.mem_cons_self)

/-- folding assignments with distinct keys: an assigned entry is there afterwards -/
theorem lookup_foldl_assigned (u : KV V) (a : KV V) (k : String) (v : V)
    (hd : (u.map (·.1)).Nodup) (hm : (k, v) ∈ u) :
    lookup (u.foldl (fun a p => assign a p.1 p.2) a) k = some v := by
  induction u generalizing a with
  | nil => cases hm
  | cons p rest ih =>
    simp only [List.map_cons, List.nodup_cons] at hd
    simp only [List.foldl_cons]
    rcases List.mem_cons.mp hm with rfl | hr
    · rw [lookup_foldl_untouched rest _ k]
      · exact lookup_assign_same a k v
      · intro q hq hqk
        exact hd.1 (List.mem_map.mpr ⟨q, hq, hqk⟩)
    · exact ih _ hd.2 hr

theorem unknownTop_nodup (top : KV V) (hd : (top.map (·.1)).Nodup) : ((unknownTop top).map (·.1)).Nodup := by
  unfold unknownTop
  exact (List.Nodup.sublist (List.Sublist.map _ List.filter_sublist) hd)

/-- **Unknown top-level entries survive the export** (with their value, whatever it is). -/
theorem unknown_top_entry_exported (top : KV V) (args : Option (KV V)) (k : String) (v : V)
    (hd : (top.map (·.1)).Nodup) (hm : (k, v) ∈ top) (hk : k ∉ known) :
    lookup (exportArgs top args) k = some v := by
  unfold exportArgs
  apply lookup_foldl_assigned _ _ k v (unknownTop_nodup top hd)
  unfold unknownTop
  exact List.mem_filter.mpr ⟨hm, by simpa using hk⟩

/-- **Entries of `args` survive the export** unless an unknown top-level entry of the same name
overwrites them (the assignment in `convert_events`). -/
theorem args_entry_exported (top : KV V) (args : KV V) (k : String)
    (hno : ∀ p ∈ top, p.1 = k → k ∈ known) :
    lookup (exportArgs top (some args)) k = lookup args k := by
  unfold exportArgs
  apply lookup_foldl_untouched
  intro p hp hpk
  unfold unknownTop at hp
  have := List.mem_filter.mp hp
  have h1 := hno p this.1 hpk
  have h2 := this.2
  rw [hpk] at h2
  simp at h2
  exact h2 h1

/-- **Nothing is invented**: an entry of the exported `args` is an entry of the event's `args` or an
unknown top-level entry. -/
theorem exported_entry_has_source (top : KV V) (args : Option (KV V)) (k : String) (v : V)
    (hd : (top.map (·.1)).Nodup) (h : lookup (exportArgs top args) k = some v) :
    lookup (args.getD []) k = some v ∨ ((k, v) ∈ top ∧ k ∉ known) := by
  by_cases hex : ∃ p ∈ unknownTop top, p.1 = k
  · obtain ⟨p, hp, hpk⟩ := hex
    right
    have hv := lookup_foldl_assigned (unknownTop top) (args.getD []) k p.2 (unknownTop_nodup top hd)
      (by rw [← hpk]; exact hp)
    unfold exportArgs at h
    rw [hv] at h
    have hv2 : p.2 = v := Option.some.inj h
    unfold unknownTop at hp
    have hf := List.mem_filter.mp hp
    refine ⟨by rw [← hpk, ← hv2]; exact hf.1, ?_⟩
    have := hf.2
    rw [hpk] at this
    simpa using this
  · left
    unfold exportArgs at h
    rw [lookup_foldl_untouched] at h
    · exact h
    · intro p hp hpk
      exact hex ⟨p, hp, hpk⟩

/-- non-vacuity: a `null` value and a nested value survive, a top-level entry overwrites -/
example : exportArgs (V := String) [("ph", "X"), ("custom_top", "7"), ("note", "top")]
      (some [("usr_null", "null"), ("note", "args"), ("usr_nest", "{n:null}")]) =
    [("usr_null", "null"), ("note", "top"), ("usr_nest", "{n:null}"), ("custom_top", "7")] := by decide

end AiuVerif.C01
