/-
C11 — PT utilization equals ideal cycles over observed kernel time, capped at 100 %.

Property theorems only; helper lemmas live in `Lemmas/Util.lean`, the model in `Model/Util.lean`.
Statements are for all parsed single-table logs, all kernel sequences and all core frequencies > 0.
Exact values; the `round(·, 4)` of the CSV ratio columns is outside the model (see harness/props/c11.py).
-/
import AiuVerif.Lemmas.Util

namespace AiuVerif.C11
open AiuVerif.Util

/-- the ideal cycles the log lists for a kernel-slice name: the first row `<kernel> …` with
`<kernel> Cmpt Exec = name` and a non-zero count; 0 when the kernel is unknown or only listed with 0 -/
def listedCycles (rows : List LogRow) (name : String) : Nat := (firstNonzero rows name).getD 0

/-- the category the log assigns to a kernel-slice name: that of its first row; `other` if unknown -/
def listedCat (rows : List LogRow) (name : String) : String := (firstCat rows name).getD "other"

/-- **Table semantics: first listing wins.**  `get_cycles` returns the count of the first row of that
kernel that is non-zero (0 if there is none), and the category map returns the category of the kernel's
first row (`other` for unknown kernels). -/
theorem table_lookup_spec (rows : List LogRow) (name : String) :
    getCycles (buildTable rows) name = listedCycles rows name ∧
    (name ≠ "other" → catOfKernel (buildCatMap rows) name = listedCat rows name) :=
  ⟨getCycles_buildTable rows name, catOfKernel_buildCatMap rows name⟩

/-- **Masked kernel names are looked up under their expanded name.**  Whenever `args.fn_idx` is present —
for every value, the integer 0 and the string "0" included — a name whose leftmost `[N]` sits after `pre`
is looked up in the cycle table and the category map as `pre ++ str(fn_idx) ++ post`. -/
theorem masked_name_lookup (e : UEv) (f : FnIdx) (hf : e.fn = some f) (pre post : List Char)
    (hname : e.name.toList = pre ++ "[N]".toList ++ post)
    (hfirst : ∀ k, k < pre.length → "[N]".toList.isPrefixOf (e.name.toList.drop k) = false)
    (hsuf : endsWithChars "Cmpt Exec".toList post = true) :
    tableName e = String.ofList (pre ++ f.render.toList ++ post) := by
  have hr := replaceFirst_spec "[N]".toList f.render.toList (by decide) pre post (by rw [← hname]; exact hfirst)
  have he : endsWithChars "Cmpt Exec".toList (pre ++ f.render.toList ++ post) = true :=
    endsWithChars_append _ _ _ hsuf
  simp only [tableName, tableChars, hf, hname, hr, he, if_true]

/-- without `args.fn_idx` a kernel-slice name is looked up as it is (a literal `[N]` included) -/
theorem unmasked_name_lookup (e : UEv) (hf : e.fn = none)
    (hsuf : endsWithChars "Cmpt Exec".toList e.name.toList = true) : tableName e = e.name := by
  simp only [tableName, tableChars, hf, hsuf, if_true, String.ofList_toList]

example : tableName ⟨"alpha_[N]_mm Cmpt Exec", 0, 0, 8, true, some (.int 0)⟩ = "alpha_0_mm Cmpt Exec" := by decide
example : tableName ⟨"alpha_[N]_mm Cmpt Exec", 0, 0, 8, true, some (.str "0")⟩ = "alpha_0_mm Cmpt Exec" := by decide
example : tableName ⟨"alpha_[N]_mm_[N] Cmpt Exec", 0, 0, 8, true, some (.int 12)⟩ = "alpha_12_mm_[N] Cmpt Exec" := by
  decide
example : tableName ⟨"alpha_[N]_mm Cmpt Exec", 0, 0, 8, true, none⟩ = "alpha_[N]_mm Cmpt Exec" := by decide
example : tableName ⟨"plain Cmpt Exec", 0, 0, 8, true, some (.int 0)⟩ = "plain Cmpt Exec" := by decide

theorem util_eq (cfg : Cfg) (hcore : 0 < cfg.core) (rows : List LogRow) (e : UEv)
    (hdur : 1 / 1000000000 < e.dur) :
    utilOf (mkEnv cfg rows) e = min 1 ((listedCycles rows (tableName e) : Rat) / cfg.core / e.dur) := by
  have hd0 : (0 : Rat) < e.dur := lt_trans (by norm_num) hdur
  have hx : (0 : Rat) ≤ (listedCycles rows (tableName e) : Rat) / cfg.core / e.dur :=
    div_nonneg (div_nonneg (Nat.cast_nonneg _) hcore.le) hd0.le
  have hi : idealOf (mkEnv cfg rows) e / e.dur = (listedCycles rows (tableName e) : Rat) / cfg.core / e.dur := by
    simp only [idealOf, mkEnv, idealDur, getCycles_buildTable, listedCycles]
    field_simp
  simp only [utilOf, utilization, tiny_false_of_gt e.dur hdur, hi, absR_of_nonneg _ hx]
  by_cases h : 1 < (listedCycles rows (tableName e) : Rat) / cfg.core / e.dur
  · simp [h, min_eq_left (le_of_lt h)]
  · simp [h, min_eq_right (not_lt.mp h)]

/-- **pt_active = min(1, (ideal_cycles / core_freq) / dur)** for every kernel slice whose kernel is listed
with non-zero cycles, and no `pt_active` at all for kernels listed with 0 or not listed.  (`dur` is the
slice duration in µs, above the 1e-9 guard of the code.) -/
theorem pt_active_formula (cfg : Cfg) (hcore : 0 < cfg.core) (rows : List LogRow) (e : UEv)
    (hdur : 1 / 1000000000 < e.dur) :
    (listedCycles rows (tableName e) ≠ 0 →
      (annotate (mkEnv cfg rows) e).pt = some (min 1 ((listedCycles rows (tableName e) : Rat) / cfg.core / e.dur))) ∧
    (listedCycles rows (tableName e) = 0 → (annotate (mkEnv cfg rows) e).pt = none) := by
  have hd0 : (0 : Rat) < e.dur := lt_trans (by norm_num) hdur
  have hu := util_eq cfg hcore rows e hdur
  constructor
  · intro hc
    have hc' : (0 : Rat) < (listedCycles rows (tableName e) : Rat) := by exact_mod_cast Nat.pos_of_ne_zero hc
    have hx : (0 : Rat) < (listedCycles rows (tableName e) : Rat) / cfg.core / e.dur := div_pos (div_pos hc' hcore) hd0
    have : (0 : Rat) < min 1 ((listedCycles rows (tableName e) : Rat) / cfg.core / e.dur) := lt_min one_pos hx
    simp [annotate, ptActive, hu, this]
  · intro hc
    simp [annotate, ptActive, hu, hc]

/-- the excluded branch: a duration within 1e-9 of zero gives utilization 0, hence no `pt_active` -/
theorem pt_active_tiny_dur (env : Env) (e : UEv) (h : tiny e.dur = true) : (annotate env e).pt = none := by
  have h0 : utilization (idealOf env e) e.dur = 0 := by
    simp only [utilization, h, if_true]
    norm_num
  simp [annotate, ptActive, utilOf, h0]

/-- **Counter pair** (with `calculate_stats` registered, the default): a kernel slice listed with non-zero
cycles gets the `PT Active` counter `100 · pt_active` at its start and `0` at its end (as long as
`100 · pt_active` is above the 1e-9 drop threshold of `calculate_stats`); a kernel listed with zero cycles
or not listed gets no counter at all. -/
theorem counter_pair (cfg : Cfg) (hcore : 0 < cfg.core) (hstats : cfg.stats = true) (rows : List LogRow)
    (e : UEv) (hdur : 1 / 1000000000 < e.dur) :
    (listedCycles rows (tableName e) = 0 → (annotate (mkEnv cfg rows) e).ctrs = []) ∧
    (1 / 1000000000 < min 1 ((listedCycles rows (tableName e) : Rat) / cfg.core / e.dur) * 100 →
      (annotate (mkEnv cfg rows) e).ctrs =
        [(e.ts, min 1 ((listedCycles rows (tableName e) : Rat) / cfg.core / e.dur) * 100), (e.ts + e.dur, 0)]) := by
  have hu := util_eq cfg hcore rows e hdur
  have hs : (mkEnv cfg rows).cfg.stats = true := hstats
  constructor
  · intro hc
    have h0 : utilOf (mkEnv cfg rows) e = 0 := by simp [hu, hc]
    simp [annotate, counters, h0, hs, tiny, absR]
  · intro hgt
    have hpos : (0 : Rat) < min 1 ((listedCycles rows (tableName e) : Rat) / cfg.core / e.dur) * 100 :=
      lt_trans (by norm_num) hgt
    simp [annotate, counters, hu, hs, tiny_false_of_gt _ hgt, hpos]

/-- without the stats stage (`-t`) a kernel with zero / unknown ideal cycles still gets a zero-valued
start counter: the "gets neither" clause depends on `calculate_stats` being registered -/
theorem no_stats_zero_counter (cfg : Cfg) (hcore : 0 < cfg.core) (hstats : cfg.stats = false)
    (rows : List LogRow) (e : UEv) (hdur : 1 / 1000000000 < e.dur) (hc : listedCycles rows (tableName e) = 0) :
    (annotate (mkEnv cfg rows) e).ctrs = [(e.ts, 0)] := by
  have hu := util_eq cfg hcore rows e hdur
  have hs : (mkEnv cfg rows).cfg.stats = false := hstats
  have h0 : utilOf (mkEnv cfg rows) e = 0 := by simp [hu, hc]
  simp [annotate, counters, h0, hs]

/-- the category table of rank `p` after all kernel slices of the run -/
def finalTab (cfg : Cfg) (rows : List LogRow) (evs : List UEv) (p : Int) : CTab :=
  tabOf (initTab (mkEnv cfg rows).catmap) (tables (mkEnv cfg rows) (kernels evs)) p

/-- the kernel slices of rank `p` -/
def slicesOf (evs : List UEv) (p : Int) : List UEv := (kernels evs).filter (fun e => e.pid = p)

theorem finalTab_eq (cfg : Cfg) (rows : List LogRow) (evs : List UEv) (p : Int) :
    finalTab cfg rows evs p =
      (slicesOf evs p).foldl (fun t e => accumulate t (catOf (mkEnv cfg rows) e) (accOf (mkEnv cfg rows) e))
        (initTab (mkEnv cfg rows).catmap) := by
  simp [finalTab, tables, tabOf_foldl_step, slicesOf, tabOf]

/-- **Every kernel slice is counted exactly once, in the category assigned to it**: the row of a category
`c ≠ Total` of rank `p` holds exactly the slices of rank `p` whose kernel has category `c` — their number,
the sum of their durations and the sum of their ideal times. -/
theorem each_kernel_counted_once (cfg : Cfg) (rows : List LogRow) (evs : List UEv) (p : Int) (c : String)
    (hc : c ≠ "Total") :
    (accAt (finalTab cfg rows evs p) c).calls =
      ((slicesOf evs p).filter (fun e => catOf (mkEnv cfg rows) e = c)).length ∧
    (accAt (finalTab cfg rows evs p) c).dur =
      (((slicesOf evs p).filter (fun e => catOf (mkEnv cfg rows) e = c)).map (fun e => e.dur)).sum ∧
    (accAt (finalTab cfg rows evs p) c).ideal =
      (((slicesOf evs p).filter (fun e => catOf (mkEnv cfg rows) e = c)).map
        (fun e => idealOf (mkEnv cfg rows) e)).sum := by
  have hT : ¬ "Total" = c := fun e => hc e.symm
  have hz := accAt_zero _ (initTab_spec (mkEnv cfg rows).catmap).2 c
  rw [finalTab_eq]
  refine ⟨?_, ?_, ?_⟩
  · have := view_accAt_foldl viewCalls (catOf (mkEnv cfg rows)) (accOf (mkEnv cfg rows)) (slicesOf evs p)
      (initTab (mkEnv cfg rows).catmap) c
    simpa [viewCalls, hT, hz, Acc.zero, accOf] using this
  · have := view_accAt_foldl viewDur (catOf (mkEnv cfg rows)) (accOf (mkEnv cfg rows)) (slicesOf evs p)
      (initTab (mkEnv cfg rows).catmap) c
    simpa [viewDur, hT, hz, Acc.zero, accOf] using this
  · have := view_accAt_foldl viewIdeal (catOf (mkEnv cfg rows)) (accOf (mkEnv cfg rows)) (slicesOf evs p)
      (initTab (mkEnv cfg rows).catmap) c
    simpa [viewIdeal, hT, hz, Acc.zero, accOf] using this

/-- general form of `total_is_sum_of_categories`, with the hypothesis on the slices of the rank: none of
them falls into a category that is itself called `Total` -/
theorem total_is_sum_of_slice_categories (cfg : Cfg) (rows : List LogRow) (evs : List UEv) (p : Int)
    (hcat : ∀ e ∈ slicesOf evs p, catOf (mkEnv cfg rows) e ≠ "Total") :
    (accAt (finalTab cfg rows evs p) "Total").dur =
      (((finalTab cfg rows evs p).filter (fun q => q.1 ≠ "Total")).map (fun q => q.2.dur)).sum ∧
    (accAt (finalTab cfg rows evs p) "Total").ideal =
      (((finalTab cfg rows evs p).filter (fun q => q.1 ≠ "Total")).map (fun q => q.2.ideal)).sum ∧
    (accAt (finalTab cfg rows evs p) "Total").calls =
      (((finalTab cfg rows evs p).filter (fun q => q.1 ≠ "Total")).map (fun q => q.2.calls)).sum ∧
    (accAt (finalTab cfg rows evs p) "Total").calls = (slicesOf evs p).length := by
  have hspec := initTab_spec (mkEnv cfg rows).catmap
  have hz := accAt_zero _ hspec.2 "Total"
  have inv : ∀ {β : Type} [AddCommMonoid β] (v : View β),
      v.φ (accAt (finalTab cfg rows evs p) "Total") = sumOthers v (finalTab cfg rows evs p) := by
    intro β _ v
    rw [finalTab_eq]
    apply total_invariant v _ _ _ hcat
    rw [hz, v.zero, sumOthers_zero v _ hspec.2]
  refine ⟨inv viewDur, inv viewIdeal, inv viewCalls, ?_⟩
  have := view_accAt_foldl viewCalls (catOf (mkEnv cfg rows)) (accOf (mkEnv cfg rows)) (slicesOf evs p)
    (initTab (mkEnv cfg rows).catmap) "Total"
  rw [finalTab_eq]
  have hnone : (slicesOf evs p).filter (fun e => catOf (mkEnv cfg rows) e = "Total") = [] := by
    apply List.filter_eq_nil_iff.mpr
    intro e he
    simpa using hcat e he
  simpa [viewCalls, hz, Acc.zero, accOf, hnone] using this

/-- no log category is literally `Total` (a clash with the name of the summary row; outside the domain) -/
def NoTotalCategory (rows : List LogRow) : Prop := ∀ r ∈ rows, handleCategory r.tag ≠ "Total"

theorem catOf_ne_total (cfg : Cfg) (rows : List LogRow) (h : NoTotalCategory rows) (e : UEv) :
    catOf (mkEnv cfg rows) e ≠ "Total" := by
  rcases catOfKernel_cases rows (tableName e) with h1 | ⟨r, hr, h1⟩
  · simp only [catOf, mkEnv, h1]; decide
  · simp only [catOf, mkEnv, h1]; exact h r hr

/-- **Total = sum of the category rows**, componentwise, and Total.Calls = number of kernel slices of the
rank, for every log in which no kernel's category is literally `Total` — in particular for every log whose
rows carry `-opCat<X>` (X ≠ Total), `-NA` or no suffix at all. -/
theorem total_is_sum_of_categories (cfg : Cfg) (rows : List LogRow) (evs : List UEv) (p : Int)
    (hrows : NoTotalCategory rows) :
    (accAt (finalTab cfg rows evs p) "Total").dur =
      (((finalTab cfg rows evs p).filter (fun q => q.1 ≠ "Total")).map (fun q => q.2.dur)).sum ∧
    (accAt (finalTab cfg rows evs p) "Total").ideal =
      (((finalTab cfg rows evs p).filter (fun q => q.1 ≠ "Total")).map (fun q => q.2.ideal)).sum ∧
    (accAt (finalTab cfg rows evs p) "Total").calls =
      (((finalTab cfg rows evs p).filter (fun q => q.1 ≠ "Total")).map (fun q => q.2.calls)).sum ∧
    (accAt (finalTab cfg rows evs p) "Total").calls = (slicesOf evs p).length :=
  total_is_sum_of_slice_categories cfg rows evs p (fun e _ => catOf_ne_total cfg rows hrows e)

/-- **The remaining hypothesis is necessary**: a row whose category is literally `Total`
(`plain-opCatTotal 1024`) makes its slice count twice in the Total row while no category row shows it. -/
theorem total_double_counts_literal_total_category :
    (accAt (finalTab ⟨1024, true⟩ [⟨"plain", .opcat "Total", 1024⟩] [⟨"plain Cmpt Exec", 0, 0, 8, true, none⟩] 0) "Total").calls = 2 ∧
    (slicesOf [⟨"plain Cmpt Exec", 0, 0, 8, true, none⟩] 0).length = 1 ∧
    (((finalTab ⟨1024, true⟩ [⟨"plain", .opcat "Total", 1024⟩] [⟨"plain Cmpt Exec", 0, 0, 8, true, none⟩] 0).filter
      (fun q => q.1 ≠ "Total")).map (fun q => q.2.calls)).sum = 0 := by
  decide +kernel

/-- a kernel row without category suffix is filed under `NotAvailable` and counted once (the repaired
behaviour of /repo 3b111fa) -/
theorem uncategorised_row_counted_once :
    NoTotalCategory [⟨"plain", .none, 1024⟩] ∧
    (accAt (finalTab ⟨1024, true⟩ [⟨"plain", .none, 1024⟩] [⟨"plain Cmpt Exec", 0, 0, 8, true, none⟩] 0) "Total").calls = 1 ∧
    (accAt (finalTab ⟨1024, true⟩ [⟨"plain", .none, 1024⟩] [⟨"plain Cmpt Exec", 0, 0, 8, true, none⟩] 0) "NotAvailable").calls = 1 := by
  refine ⟨?_, by decide +kernel, by decide +kernel⟩
  intro r hr
  simp at hr
  subst hr
  decide

/-- the OLD `_handle_category` (before /repo 3b111fa): no splitter → `Total` -/
def handleCategoryOld : CatTag → String
  | .opcat c => c
  | .na => "NotAvailable"
  | .none => "Total"

/-- a log row as the OLD handler classified it, expressed in the current model -/
def asOld (r : LogRow) : LogRow :=
  match r.tag with
  | .none => { r with tag := .opcat "Total" }
  | _ => r

theorem asOld_spec (r : LogRow) :
    handleCategory (asOld r).tag = handleCategoryOld r.tag ∧ keyOfRow (asOld r) = keyOfRow r ∧
    (asOld r).cycles = r.cycles := by
  cases r with
  | mk k t c => cases t <;> simp [asOld, handleCategory, handleCategoryOld, keyOfRow]

/-- **Regression sentinel**: with the OLD `_handle_category` the unrestricted statement was false — the
row `plain 1024` (no suffix) made one slice count twice in the Total row. -/
theorem old_handle_category_double_counts :
    (accAt (finalTab ⟨1024, true⟩ ([⟨"plain", .none, 1024⟩].map asOld) [⟨"plain Cmpt Exec", 0, 0, 8, true, none⟩] 0)
      "Total").calls = 2 ∧
    (slicesOf [⟨"plain Cmpt Exec", 0, 0, 8, true, none⟩] 0).length = 1 := by
  decide +kernel

theorem nodup_finalTab (cfg : Cfg) (rows : List LogRow) (evs : List UEv) (p : Int) :
    ((finalTab cfg rows evs p).map (fun q => q.1)).Nodup := by
  rw [finalTab_eq]
  exact nodup_keys_foldl _ _ _ _ (initTab_spec _).1

/-- the CSV rows of one rank are its table entries (reordered by the stable sort) -/
theorem rowsOfTab_perm (core : Rat) (p : Int) (t : CTab) :
    (rowsOfTab core p t).Perm (t.map (mkCRow core p (totalOf t))) :=
  (List.mergeSort_perm t leTime).map _

/-- **CSV: the Total row equals the sum of the category rows** of the same rank (Kernel_Time, Ideal_Time,
Calls), under the same hypothesis; there is exactly one `Total` row per rank and it shows the `Total`
entry. -/
theorem csv_total_is_sum (cfg : Cfg) (rows : List LogRow) (evs : List UEv) (p : Int)
    (hrows : NoTotalCategory rows) :
    (∀ r ∈ rowsOfTab cfg.core p (finalTab cfg rows evs p), r.cat = "Total" →
      r.time = (((rowsOfTab cfg.core p (finalTab cfg rows evs p)).filter (fun r => r.cat ≠ "Total")).map
        (fun r => r.time)).sum ∧
      r.ideal = (((rowsOfTab cfg.core p (finalTab cfg rows evs p)).filter (fun r => r.cat ≠ "Total")).map
        (fun r => r.ideal)).sum ∧
      r.calls = (((rowsOfTab cfg.core p (finalTab cfg rows evs p)).filter (fun r => r.cat ≠ "Total")).map
        (fun r => r.calls)).sum ∧
      r.calls = (slicesOf evs p).length) ∧
    ((rowsOfTab cfg.core p (finalTab cfg rows evs p)).map (fun r => r.cat)).Nodup := by
  obtain ⟨h1, h2, h3, h4⟩ := total_is_sum_of_categories cfg rows evs p hrows
  have hperm := rowsOfTab_perm cfg.core p (finalTab cfg rows evs p)
  have hnd := nodup_finalTab cfg rows evs p
  have hfilt : ∀ {β : Type} [AddCommMonoid β] (f : CRow → β) (g : Acc → β)
      (hfg : ∀ q, f (mkCRow cfg.core p (totalOf (finalTab cfg rows evs p)) q) = g q.2),
      (((rowsOfTab cfg.core p (finalTab cfg rows evs p)).filter (fun r => r.cat ≠ "Total")).map f).sum =
        (((finalTab cfg rows evs p).filter (fun q => q.1 ≠ "Total")).map (fun q => g q.2)).sum := by
    intro β _ f g hfg
    have := ((hperm.filter (fun r => decide (r.cat ≠ "Total"))).map f).sum_eq
    rw [this, List.filter_map, List.map_map]
    congr 1
    apply List.map_congr_left
    intro q _
    exact hfg q
  constructor
  · intro r hr hrT
    obtain ⟨q, hq, rfl⟩ := List.mem_map.mp (hperm.mem_iff.mp hr)
    have hq1 : q.1 = "Total" := hrT
    have hq2 : accAt (finalTab cfg rows evs p) "Total" = q.2 := hq1 ▸ accAt_of_mem _ hnd q hq
    refine ⟨?_, ?_, ?_, ?_⟩
    · rw [hfilt (fun r => r.time) (fun a => a.dur) (fun _ => rfl), ← h1, hq2]; rfl
    · rw [hfilt (fun r => r.ideal) (fun a => a.ideal) (fun _ => rfl), ← h2, hq2]; rfl
    · rw [hfilt (fun r => r.calls) (fun a => a.calls) (fun _ => rfl), ← h3, hq2]; rfl
    · rw [← h4, hq2]; rfl
  · have := (hperm.map (fun r => r.cat))
    rw [List.map_map] at this
    exact this.nodup_iff.mpr hnd

/-- **Frac_Time, Frac_Ideal, PT_Util are the corresponding ratios** (before `round(·, 4)`): every row's
Frac_Time is its Kernel_Time over the sum of the Kernel_Time of the category rows of the rank, Frac_Ideal
its Ideal_Time over the sum of the Ideal_Time of the category rows, and PT_Util its Ideal_Time over its
Kernel_Time (uncapped); each ratio is 0 when its denominator is within 1e-9 of 0. -/
theorem ratios (cfg : Cfg) (rows : List LogRow) (evs : List UEv) (p : Int)
    (hrows : NoTotalCategory rows)
    (r : CRow) (hr : r ∈ rowsOfTab cfg.core p (finalTab cfg rows evs p)) :
    r.fracTime = ratio r.time ((((rowsOfTab cfg.core p (finalTab cfg rows evs p)).filter
        (fun r => r.cat ≠ "Total")).map (fun r => r.time)).sum) ∧
    r.fracIdeal = ratio r.ideal ((((rowsOfTab cfg.core p (finalTab cfg rows evs p)).filter
        (fun r => r.cat ≠ "Total")).map (fun r => r.ideal)).sum) ∧
    r.ptUtil = ratio r.ideal r.time := by
  obtain ⟨h1, h2, _, _⟩ := total_is_sum_of_categories cfg rows evs p hrows
  have hperm := rowsOfTab_perm cfg.core p (finalTab cfg rows evs p)
  have hsumT : (((rowsOfTab cfg.core p (finalTab cfg rows evs p)).filter (fun r => r.cat ≠ "Total")).map
      (fun r => r.time)).sum = (totalOf (finalTab cfg rows evs p)).dur := by
    have := ((hperm.filter (fun r => decide (r.cat ≠ "Total"))).map (fun r => r.time)).sum_eq
    rw [this, List.filter_map, List.map_map]
    exact h1.symm
  have hsumI : (((rowsOfTab cfg.core p (finalTab cfg rows evs p)).filter (fun r => r.cat ≠ "Total")).map
      (fun r => r.ideal)).sum = (totalOf (finalTab cfg rows evs p)).ideal := by
    have := ((hperm.filter (fun r => decide (r.cat ≠ "Total"))).map (fun r => r.ideal)).sum_eq
    rw [this, List.filter_map, List.map_map]
    exact h2.symm
  obtain ⟨q, _, rfl⟩ := List.mem_map.mp (hperm.mem_iff.mp hr)
  rw [hsumT, hsumI]
  exact ⟨rfl, rfl, rfl⟩

/-- **Ideal_Cyc is the exact sum of the listed cycles** of the slices counted in the row: the detour through
`ideal time / (1/core)` and `int()` loses nothing in exact arithmetic. -/
theorem ideal_cycles_exact (cfg : Cfg) (hcore : 0 < cfg.core) (rows : List LogRow) (evs : List UEv) (p : Int)
    (r : CRow) (hr : r ∈ rowsOfTab cfg.core p (finalTab cfg rows evs p)) (hc : r.cat ≠ "Total") :
    r.idealCyc = ((((slicesOf evs p).filter (fun e => catOf (mkEnv cfg rows) e = r.cat)).map
      (fun e => listedCycles rows (tableName e))).sum : Nat) := by
  have hperm := rowsOfTab_perm cfg.core p (finalTab cfg rows evs p)
  have hnd := nodup_finalTab cfg rows evs p
  obtain ⟨q, hq, rfl⟩ := List.mem_map.mp (hperm.mem_iff.mp hr)
  have hq2 : accAt (finalTab cfg rows evs p) q.1 = q.2 := accAt_of_mem _ hnd q hq
  have hcat : (mkCRow cfg.core p (totalOf (finalTab cfg rows evs p)) q).cat = q.1 := rfl
  rw [hcat] at hc ⊢
  obtain ⟨_, _, h3⟩ := each_kernel_counted_once cfg rows evs p q.1 hc
  rw [hq2] at h3
  have hk : (0 : Rat) < 1 / cfg.core := one_div_pos.mpr hcore
  have hid : ∀ e, idealOf (mkEnv cfg rows) e = (listedCycles rows (tableName e) : Rat) * (1 / cfg.core) := by
    intro e
    simp [idealOf, mkEnv, idealDur, getCycles_buildTable, listedCycles]
  have hsum : q.2.ideal = ((((slicesOf evs p).filter (fun e => catOf (mkEnv cfg rows) e = q.1)).map
      (fun e => listedCycles rows (tableName e))).sum : Nat) * (1 / cfg.core) := by
    rw [h3, ← sum_map_cast_mul]
    congr 1
    apply List.map_congr_left
    intro e _
    exact hid e
  show (q.2.ideal / absR (1 / cfg.core)).floor = _
  rw [absR_of_nonneg _ hk.le, hsum, mul_div_assoc, div_self (ne_of_gt hk), mul_one]
  exact_mod_cast Rat.floor_intCast _

/-- **The file is the concatenation, by ascending pid, of the rows of the rank tables** the theorems above
speak about (every stored table is the `finalTab` of its pid). -/
theorem csv_rows_are_rank_tables (cfg : Cfg) (rows : List LogRow) (evs : List UEv) :
    (run cfg rows evs).rows =
      ((tables (mkEnv cfg rows) (kernels evs)).mergeSort lePid).flatMap
        (fun q => rowsOfTab cfg.core q.1 (finalTab cfg rows evs q.1)) := by
  show csvRows cfg.core (tables (mkEnv cfg rows) (kernels evs)) = _
  unfold csvRows
  apply List.flatMap_congr
  intro q hq
  have hq' : q ∈ tables (mkEnv cfg rows) (kernels evs) := List.mem_mergeSort.mp hq
  have hnd := nodup_pids_tables (mkEnv cfg rows) (kernels evs) [] (by simp)
  have : finalTab cfg rows evs q.1 = q.2 := tabOf_of_mem _ _ hnd q hq'
  rw [this]

/-! ### non-vacuity -/

def exRows : List LogRow :=
  [⟨"mm_0", .opcat "Bmm_fp16", 10240⟩, ⟨"mm_1", .opcat "Bmm_fp16", 40960⟩, ⟨"conv", .opcat "Conv_fp16", 0⟩,
   ⟨"gelu", .na, 2048⟩, ⟨"mm_0", .opcat "Other", 7⟩, ⟨"plain", .none, 64⟩]

def exEvs : List UEv :=
  [⟨"mm_0 Cmpt Exec", 0, 113, 20, true, none⟩, ⟨"mm_1 Cmpt Exec", 0, 148, 20, true, none⟩, ⟨"conv Cmpt Exec", 0, 183, 20, true, none⟩,
   ⟨"gelu Cmpt Exec", 0, 218, 8, true, none⟩, ⟨"unk_7 Cmpt Exec", 0, 264, 8, true, none⟩, ⟨"mm_0 Cmpt Prep", 0, 100, 5, true, none⟩,
   ⟨"mm_0 Cmpt Exec", 1, 50, 5, true, none⟩]

example : listedCycles exRows "mm_0 Cmpt Exec" = 10240 ∧ listedCycles exRows "conv Cmpt Exec" = 0 ∧
    listedCycles exRows "unk_7 Cmpt Exec" = 0 := by decide
example : (kernels exEvs).length = 6 ∧ (slicesOf exEvs 0).length = 5 := by decide
example : NoTotalCategory exRows := by
  intro r hr
  simp [exRows] at hr
  rcases hr with rfl | rfl | rfl | rfl | rfl | rfl <;> decide
example : NoTotalCategory [] := by intro r hr; simp at hr
example : (annotate (mkEnv ⟨1024, true⟩ exRows) ⟨"mm_0 Cmpt Exec", 0, 113, 20, true, none⟩).pt = some (1 / 2) := by
  decide +kernel
example : (annotate (mkEnv ⟨1024, true⟩ exRows) ⟨"mm_0 Cmpt Exec", 1, 50, 5, true, none⟩).pt = some 1 := by
  decide +kernel
example : (1 : Rat) / 1000000000 < min 1 ((10240 : Rat) / 1024 / 20) * 100 := by norm_num

end AiuVerif.C11
